#!/usr/bin/env python3
"""Orchestration of one property check (see DESIGN.md sections 2-4 and 12).

    ./check Cxx [--tier quick|thorough] [--seed N]     decide property Cxx on /repo's working tree
    ./check Cxx --replay replays/Cxx/<file>.json       re-run a recorded case on implementation + model
    ./check --setup                                    build everything from files on disk (offline)

Environment: VERIF_SEED, VERIF_TIER, VERIF_REPO (default /repo), VERIF_KEEP=1 keeps the run directory.
"""
import fcntl
import hashlib
import json
import os
import re
import shutil
import subprocess
import sys
import time

ROOT = os.path.dirname(os.path.dirname(os.path.abspath(__file__)))
REPO = os.environ.get("VERIF_REPO", "/repo")
LEAN = os.path.join(ROOT, "lean")
BUILD = os.path.join(ROOT, ".build")
ALLOWED_AXIOMS = {"propext", "Classical.choice", "Quot.sound"}
FORBIDDEN = re.compile(r"\bsorry\b|\badmit\b|^axiom |native_decide|bv_decide|implemented_by|\bunsafe |maxHeartbeats 0")
GOENV = dict(os.environ, GOFLAGS="-mod=mod", GOPROXY="off", GOSUMDB="off", GOTOOLCHAIN="local",
             CGO_ENABLED="0")
MAX_BAD_CASES = 12
TRIVIAL_OBS = re.compile(r"^(err\S*|panic|empty|nil|hang|crash|bad-op|unimplemented|\||;|\s)*$")


def sh(cmd, cwd=None, env=None, timeout=None, stdin=None):
    p = subprocess.run(cmd, cwd=cwd, env=env, timeout=timeout, input=stdin, stdout=subprocess.PIPE,
                       stderr=subprocess.STDOUT, text=True)
    return p.returncode, p.stdout


class Lock:
    def __enter__(self):
        os.makedirs(BUILD, exist_ok=True)
        self.f = open(os.path.join(BUILD, "lock"), "w")
        fcntl.flock(self.f, fcntl.LOCK_EX)
        return self

    def __exit__(self, *a):
        fcntl.flock(self.f, fcntl.LOCK_UN)
        self.f.close()


# ------------------------------------------------------------------------------------------------
# build steps (all under the lock)

def build_extract_and_gen(log):
    """(Re)build the extractor and regenerate lean/FpgoVerif/Gen from REPO's working tree."""
    rc, out = sh(["go", "build", "-o", os.path.join(BUILD, "extract"), "."], cwd=os.path.join(ROOT, "extract"), env=GOENV)
    if rc != 0:
        raise SystemExit("extractor does not build:\n" + out)
    tmp = os.path.join(BUILD, "gen.tmp")
    shutil.rmtree(tmp, ignore_errors=True)
    os.makedirs(tmp)
    rc, out = sh([os.path.join(BUILD, "extract"), REPO, tmp])
    log.append(("extract", rc, out))
    gen = os.path.join(LEAN, "FpgoVerif", "Gen")
    os.makedirs(gen, exist_ok=True)
    produced = set(os.listdir(tmp))
    changed = []
    for n in produced:
        new = open(os.path.join(tmp, n)).read()
        dst = os.path.join(gen, n)
        old = open(dst).read() if os.path.exists(dst) else None
        if old != new:
            with open(dst, "w") as f:
                f.write(new)
            changed.append(n)
    for n in os.listdir(gen):
        if n not in produced:
            os.remove(os.path.join(gen, n))
            changed.append("-" + n)
    shutil.rmtree(tmp, ignore_errors=True)
    hashes = {n: hashlib.sha256(open(os.path.join(gen, n), "rb").read()).hexdigest()[:16] for n in sorted(produced)}
    return rc, out, changed, hashes


def trim_go_cache(limit_gb=12):
    """Best effort: every harness build against a different tree adds to Go's build cache; keep it bounded."""
    try:
        rc, out = sh(["go", "env", "GOCACHE"], env=GOENV)
        d = out.strip()
        if rc != 0 or not d or not os.path.isdir(d):
            return
        rc, out = sh(["du", "-s", "-BG", d])
        if rc == 0 and int(out.split()[0].rstrip("G")) > limit_gb:
            sh(["go", "clean", "-cache"], env=GOENV)
    except Exception:
        pass


def build_harness(dst):
    trim_go_cache()
    h = os.path.join(ROOT, "harness")
    tmpl = open(os.path.join(h, "go.mod.tmpl")).read().replace("@REPO@", REPO)
    with open(os.path.join(h, "go.mod"), "w") as f:
        f.write(tmpl)
    if os.path.exists(os.path.join(REPO, "go.sum")):
        shutil.copy(os.path.join(REPO, "go.sum"), os.path.join(h, "go.sum"))
    if os.path.exists(dst):
        os.remove(dst)
    return sh(["go", "build", "-tags", "verif", "-o", dst, "."], cwd=h, env=GOENV)


def lake(args, timeout=3600):
    return sh(["lake"] + args, cwd=LEAN, timeout=timeout)


def forbidden_scan():
    hits = []
    for base, _, files in os.walk(LEAN):
        if ".lake" in base:
            continue
        for fn in files:
            if not fn.endswith(".lean"):
                continue
            path = os.path.join(base, fn)
            depth = 0
            for i, line in enumerate(open(path), 1):
                # strip block comments (nesting tracked coarsely) and line comments
                s = line
                if depth > 0 or "/-" in s:
                    # coarse: skip whole lines inside block comments
                    opens, closes = s.count("/-"), s.count("-/")
                    was = depth
                    depth = max(0, depth + opens - closes)
                    if was > 0 or opens > 0:
                        continue
                s = s.split("--")[0]
                if FORBIDDEN.search(s):
                    hits.append(f"{os.path.relpath(path, LEAN)}:{i}: {line.strip()}")
    return hits


def audit(prop):
    """Returns (expected theorem names, {name: [axioms]} for those printed, raw output)."""
    path = os.path.join(LEAN, "FpgoVerif", "Audit", prop + ".lean")
    src = open(path).read()
    expected = re.findall(r"^#print axioms\s+(\S+)", src, re.M)
    rc, out = sh(["lake", "env", "lean", os.path.join("FpgoVerif", "Audit", prop + ".lean")], cwd=LEAN, timeout=1800)
    flat = re.sub(r"\s+", " ", out)
    got = {}
    for m in re.finditer(r"'([^']+)' depends on axioms: \[([^\]]*)\]", flat):
        got[m.group(1)] = [a.strip() for a in m.group(2).split(",") if a.strip()]
    for m in re.finditer(r"'([^']+)' does not depend on any axioms", flat):
        got[m.group(1)] = []
    return expected, got, out, rc


def broken_decls(build_out):
    """Names of declarations nearest above each error position in a lake build log."""
    res = []
    for m in re.finditer(r"error: (\S+?\.lean):(\d+):(\d+):\s*(.*)", build_out):
        path, line, msg = m.group(1), int(m.group(2)), m.group(4)
        full = path if os.path.isabs(path) else os.path.join(LEAN, path)
        name = None
        try:
            lines = open(full).read().split("\n")
            for i in range(min(line, len(lines)) - 1, -1, -1):
                mm = re.match(r"\s*(?:@\[[^\]]*\]\s*)?(?:private |protected )?(theorem|lemma|def|example|instance)\s+(\S+)", lines[i])
                if mm:
                    name = mm.group(2)
                    break
        except OSError:
            pass
        res.append(f"{os.path.relpath(full, LEAN)}:{line} ({name or '?'}): {msg[:160]}")
    return res


# ------------------------------------------------------------------------------------------------
# correspondence

def run_impl(harness, prop, cases, rundir, per_case_timeout=None, deadline=None):
    """Run the real code over all case lines; crash/hang robust.  Returns list of observation lines."""
    outs = []
    casefile = os.path.join(rundir, "cases.txt")
    with open(casefile, "w") as f:
        f.write("".join(c + "\n" for c in cases))
    careful = False
    restarts = 0
    while len(outs) < len(cases):
        env = dict(os.environ, GOMEMLIMIT="6GiB")
        if careful:
            env["VERIF_FLUSH"] = "1"
        with open(casefile) as fin:
            p = subprocess.Popen([harness, "run", prop, str(len(outs))], stdin=fin, stdout=subprocess.PIPE,
                                 stderr=subprocess.PIPE, text=True, env=env)
            timed_out = False
            try:
                so, se = p.communicate(timeout=7200 if deadline is None else max(5.0, deadline - time.time()))
            except subprocess.TimeoutExpired:
                p.kill()
                so, se = p.communicate()
                timed_out = True
        got = so.split("\n")
        if got and got[-1] == "":
            got.pop()
        if timed_out and deadline is not None:
            # search budget exhausted: keep the complete observations received so far, drop the rest of the cases
            outs.extend(got[: max(0, len(got) - 1)])
            break
        if p.returncode == 0:
            outs.extend(got)
            break
        restarts += 1
        if restarts > 2 * MAX_BAD_CASES + 10:
            break
        if p.returncode == 3 and got and got[-1] == "hang":
            outs.extend(got)          # hang is attributed exactly (flushed before exit)
            careful = False
            if sum(1 for o in outs if o in ("hang", "crash")) >= MAX_BAD_CASES:
                break
            continue
        if careful:
            outs.extend(got)
            outs.append("crash")      # the first unanswered case killed the process
            with open(os.path.join(rundir, "crash.log"), "a") as f:
                f.write(f"case {len(outs)}: {cases[len(outs)-1]}\n{se[-3000:]}\n")
            careful = False
            if sum(1 for o in outs if o in ("hang", "crash")) >= MAX_BAD_CASES:
                break
        else:
            # output may have been lost in the buffer: redo from the first unanswered case, flushing per line
            outs.extend(got[: max(0, len(got) - 64)])
            careful = True
    bad = sum(1 for o in outs if o in ("hang", "crash"))
    if len(outs) < len(cases):
        # too many hanging / crashing cases: the remaining cases are not executed (both sides are truncated)
        del cases[len(outs):]
    return outs[: len(cases)]


def run_model(driver, prop, cases, mode=None, impl=None):
    args = [driver, prop] + ([mode] if mode else [])
    if mode == "judge":
        data = "".join(f"{c}\t{i}\n" for c, i in zip(cases, impl))
    else:
        data = "".join(c + "\n" for c in cases)
    p = subprocess.run(args, input=data, stdout=subprocess.PIPE, stderr=subprocess.PIPE, text=True, timeout=7200)
    if p.returncode != 0:
        raise SystemExit(f"Lean driver failed ({p.returncode}): {p.stderr[-2000:]}")
    out = p.stdout.split("\n")
    if out and out[-1] == "":
        out.pop()
    if len(out) != len(cases):
        raise SystemExit(f"Lean driver answered {len(out)} lines for {len(cases)} cases")
    return out


def gen_cases(harness, prop, tier, seed, rundir):
    statsfile = os.path.join(rundir, "stats.json")
    with open(statsfile, "w") as sf:
        p = subprocess.Popen([harness, "gen", prop, tier, str(seed)], stdout=subprocess.PIPE, stderr=subprocess.PIPE,
                             text=True, pass_fds=(), close_fds=False,
                             preexec_fn=lambda: (os.dup2(sf.fileno(), 3, inheritable=True) if sf.fileno() != 3 else os.set_inheritable(3, True)))
        so, se = p.communicate(timeout=3600)
    if p.returncode != 0:
        raise SystemExit("harness gen failed: " + se[-2000:])
    lines = [l for l in so.split("\n") if l != ""]
    try:
        stats = json.load(open(statsfile))
    except Exception:
        stats = {}
    return lines, stats


def shrink(harness, driver, prop, case, rundir):
    """ddmin-lite over ' ; '-separated operations: keep removing single ops while the judge still says violation."""
    if " ; " not in case:
        return case
    head, _, body = case.partition(": ") if ": " in case.split(" ; ")[0] else ("", "", case)
    ops = body.split(" ; ")
    prefix = (head + ": ") if head else ""

    def bad(ops_):
        c = prefix + " ; ".join(ops_)
        impl = run_impl(harness, prop, [c], rundir)
        model = run_model(driver, prop, [c])
        if impl == model:
            return False
        return run_model(driver, prop, [c], "judge", impl)[0].startswith("violation")

    changed = True
    budget = 200
    while changed and len(ops) > 1 and budget > 0:
        changed = False
        for i in range(len(ops)):
            budget -= 1
            cand = ops[:i] + ops[i + 1:]
            if cand and bad(cand):
                ops = cand
                changed = True
                break
    return prefix + " ; ".join(ops)


# ------------------------------------------------------------------------------------------------

def load_known(prop):
    path = os.path.join(ROOT, "known_findings.json")
    if not os.path.exists(path):
        return []
    return [e for e in json.load(open(path)).get("entries", []) if e.get("property") == prop]


def corpus_cases(prop):
    d = os.path.join(ROOT, "corpus", prop)
    res = []
    if os.path.isdir(d):
        for fn in sorted(os.listdir(d)):
            if fn.endswith(".txt"):
                for l in open(os.path.join(d, fn)):
                    l = l.rstrip("\n")
                    if l and not l.startswith("#"):
                        res.append(l)
    return res


def write_replay(prop, obj):
    d = os.path.join(ROOT, "replays", prop)
    os.makedirs(d, exist_ok=True)
    blob = json.dumps(obj, indent=1, sort_keys=True)
    name = hashlib.sha256(blob.encode()).hexdigest()[:12] + ".json"
    with open(os.path.join(d, name), "w") as f:
        f.write(blob + "\n")
    return os.path.join("replays", prop, name)


def prepare(prop, rundir, log):
    """Under the lock: regenerate Gen, build Lean obligations + driver + harness, copy binaries into rundir."""
    info = {}
    with Lock():
        rc, out, changed, hashes = build_extract_and_gen(log)
        info["gen_changed"] = changed
        info["gen_hashes"] = hashes
        info["extract_rc"] = rc
        info["extract_out"] = out[-4000:]
        t0 = time.time()
        rc_d, out_d = lake(["build", "driver"])
        info["driver_rc"], info["driver_out"] = rc_d, out_d[-6000:]
        rc_p, out_p = lake(["build", f"FpgoVerif.Props.{prop}"])
        info["props_rc"], info["props_out"] = rc_p, out_p[-12000:]
        expected, got, aout, arc = audit(prop) if rc_p == 0 else (re.findall(r"^#print axioms\s+(\S+)", open(os.path.join(LEAN, "FpgoVerif", "Audit", prop + ".lean")).read(), re.M), {}, "", 1)
        info["audit_expected"], info["audit_got"], info["audit_out"], info["audit_rc"] = expected, got, aout[-6000:], arc
        info["lean_s"] = round(time.time() - t0, 1)
        info["forbidden"] = forbidden_scan()
        hb = os.path.join(BUILD, "harness")
        rc_h, out_h = build_harness(hb)
        info["harness_rc"], info["harness_out"] = rc_h, out_h[-6000:]
        if rc_d == 0:
            shutil.copy(os.path.join(LEAN, ".lake", "build", "bin", "driver"), os.path.join(rundir, "driver"))
        if rc_h == 0:
            shutil.copy(hb, os.path.join(rundir, "harness"))
    return info


def thorough_lean(prop):
    """From-clean rebuild of the property's modules in a scratch copy + leanchecker re-check."""
    dst = os.path.join(BUILD, f"thorough-{prop}-{os.getpid()}")
    shutil.rmtree(dst, ignore_errors=True)
    shutil.copytree(LEAN, dst, ignore=shutil.ignore_patterns(".lake"))
    try:
        t0 = time.time()
        rc, out = sh(["lake", "build", f"FpgoVerif.Props.{prop}"], cwd=dst, timeout=7200)
        rc2, out2 = (1, "")
        if rc == 0:
            rc2, out2 = sh(["lake", "env", "leanchecker", f"FpgoVerif.Props.{prop}"], cwd=dst, timeout=7200)
        return {"clean_build_rc": rc, "leanchecker_rc": rc2, "leanchecker_out": out2[-1500:], "clean_build_tail": out[-1500:] if rc else "",
                "s": round(time.time() - t0, 1)}
    finally:
        shutil.rmtree(dst, ignore_errors=True)


def main(argv):
    if "--setup" in argv:
        return setup()
    prop = None
    tier = os.environ.get("VERIF_TIER", "quick")
    seed = int(os.environ.get("VERIF_SEED", "1"))
    replay = None
    i = 0
    while i < len(argv):
        a = argv[i]
        if a == "--tier":
            tier = argv[i + 1]; i += 1
        elif a == "--seed":
            seed = int(argv[i + 1]); i += 1
        elif a == "--replay":
            replay = argv[i + 1]; i += 1
        elif re.fullmatch(r"C\d+", a):
            prop = a
        else:
            raise SystemExit(__doc__)
        i += 1
    if not prop:
        raise SystemExit(__doc__)
    t_start = time.time()
    rundir = os.path.join(BUILD, f"run-{prop}-{os.getpid()}")
    os.makedirs(rundir, exist_ok=True)
    try:
        return check(prop, tier, seed, replay, rundir, t_start)
    finally:
        if not os.environ.get("VERIF_KEEP"):
            shutil.rmtree(rundir, ignore_errors=True)


def check(prop, tier, seed, replay, rundir, t_start):
    log = []
    info = prepare(prop, rundir, log)
    if info["driver_rc"] != 0:
        print(info["driver_out"])
        raise SystemExit("BROKEN CHECK: Lean driver does not build")
    if info["harness_rc"] != 0:
        # The harness is built against the repository: an API change there is reported as an unshown property,
        # not hidden.  (On the unchanged tree this is a bug of /verif.)
        print(info["harness_out"])
        path = write_replay(prop, {"property": prop, "kind": "no-failing-input-found",
                                   "broken": ["harness does not build against the repository"], "log": info["harness_out"][-3000:]})
        write_evidence(prop, tier, seed, t_start, info, None, violations=1)
        print(f"VIOLATION property={prop} replay={path} no-failing-input-found")
        return 1
    harness, driver = os.path.join(rundir, "harness"), os.path.join(rundir, "driver")

    if replay:
        obj = json.load(open(replay if os.path.isabs(replay) else os.path.join(ROOT, replay)))
        case = obj.get("case")
        if not case:
            print("replay names no case:", json.dumps(obj.get("broken")))
            return 0
        impl = run_impl(harness, prop, [case], rundir)
        model = run_model(driver, prop, [case])
        verdict = run_model(driver, prop, [case], "judge", impl)[0] if impl != model else "agree"
        print(f"case:  {case}\nimpl:  {impl[0]}\nmodel: {model[0]}\njudge: {verdict}")
        return 1 if verdict.startswith("violation") else 0

    # ---- obligations
    expected, got = info["audit_expected"], info["audit_got"]
    lean_broken = []
    if info["extract_rc"] != 0:
        lean_broken.append("extractor reported an error: " + info["extract_out"][-400:])
    if info["props_rc"] != 0:
        lean_broken += ["obligation does not check: " + b for b in broken_decls(info["props_out"])] or ["lake build FpgoVerif.Props.%s failed" % prop]
    else:
        for n in expected:
            if n not in got:
                lean_broken.append(f"theorem {n}: not printed by the audit")
            elif not set(got[n]) <= ALLOWED_AXIOMS:
                lean_broken.append(f"theorem {n}: depends on non-standard axioms {got[n]}")
    for h in info["forbidden"]:
        lean_broken.append("forbidden token: " + h)
    if not expected:
        lean_broken.append("no property theorem registered in Audit/%s.lean" % prop)
    discharged = 0 if info["props_rc"] != 0 else sum(1 for n in expected if n in got and set(got[n]) <= ALLOWED_AXIOMS)

    thorough_info = None
    if tier == "thorough" and not lean_broken:
        thorough_info = thorough_lean(prop)
        if thorough_info["clean_build_rc"] != 0:
            lean_broken.append("from-clean rebuild failed: " + thorough_info["clean_build_tail"][-400:])
        elif thorough_info["leanchecker_rc"] != 0:
            lean_broken.append("leanchecker rejected the compiled property module: " + thorough_info["leanchecker_out"][-400:])

    # ---- correspondence
    known = load_known(prop)
    known_cases = {e["case"]: e for e in known if e.get("case")}
    corpus = list(known_cases.keys()) + [c for c in corpus_cases(prop) if c not in known_cases]
    gen, stats = gen_cases(harness, prop, tier, seed, rundir)
    cases = corpus + gen
    impl = run_impl(harness, prop, cases, rundir)
    model = run_model(driver, prop, cases)
    mism = [k for k in range(len(cases)) if impl[k] != model[k]]
    verdicts = {}
    if mism:
        vs = run_model(driver, prop, [cases[k] for k in mism], "judge", [impl[k] for k in mism])
        verdicts = dict(zip(mism, vs))
    violations = [k for k in mism if verdicts[k].startswith("violation")]
    allowed = [k for k in mism if not verdicts[k].startswith("violation")]

    rc = 0
    lines = []
    seen_known = []
    new_viol = []
    for k in violations:
        e = known_cases.get(cases[k])
        if e and e.get("kind") == "finding":
            seen_known.append(e)
        else:
            new_viol.append(k)
    for e in known:
        if e.get("kind") == "finding" and e.get("case") and e not in seen_known:
            # a listed finding that no longer fails is simply silent
            pass
    for e in seen_known:
        lines.append(f"KNOWN-FINDING: property={prop} {e.get('what', e.get('key', ''))}")

    search_info = None
    if not new_viol and (lean_broken or allowed):
        # The property is no longer shown to hold: look harder for a concrete failing input on the real code.
        search_info = {"seeds": [], "cases": 0}
        deadline = time.time() + (180 if tier == "quick" else 900)
        s = seed
        while time.time() < deadline and not new_viol and len(search_info["seeds"]) < 12:
            s += 1000003
            # cheap seeds of the quick generator first, then the thorough generator while the budget lasts
            g2, _ = gen_cases(harness, prop, "quick" if len(search_info["seeds"]) < 3 else "thorough", s, rundir)
            i2 = run_impl(harness, prop, g2, rundir, deadline=deadline + 30)
            m2 = run_model(driver, prop, g2)
            mm = [k for k in range(len(g2)) if i2[k] != m2[k]]
            search_info["seeds"].append(s)
            search_info["cases"] += len(g2)
            if mm:
                v2 = run_model(driver, prop, [g2[k] for k in mm], "judge", [i2[k] for k in mm])
                for k, v in zip(mm, v2):
                    if v.startswith("violation") and not (g2[k] in known_cases and known_cases[g2[k]].get("kind") == "finding"):
                        base = len(cases)
                        cases.append(g2[k]); impl.append(i2[k]); model.append(m2[k]); verdicts[base] = v
                        new_viol.append(base)
                        break

    if new_viol:
        k = new_viol[0]
        small = shrink(harness, driver, prop, cases[k], rundir)
        si = run_impl(harness, prop, [small], rundir)[0]
        sm = run_model(driver, prop, [small])[0]
        sv = run_model(driver, prop, [small], "judge", [si])[0] if si != sm else "agree"
        if not sv.startswith("violation"):
            small, si, sm, sv = cases[k], impl[k], model[k], verdicts[k]
        path = write_replay(prop, {"property": prop, "kind": "counterexample", "tier": tier, "seed": seed,
                                   "broken": lean_broken, "case": small, "observed": si, "expected_by_model": sm,
                                   "oracle": sv, "shrunk_from": cases[k] if small != cases[k] else None,
                                   "other_violating_cases": [cases[j] for j in new_viol[1:6]],
                                   "rerun": f"./check {prop} --replay <this file>"})
        lines.append(f"VIOLATION property={prop} replay={path}")
        rc = 1
    elif lean_broken or allowed:
        path = write_replay(prop, {"property": prop, "kind": "no-failing-input-found", "tier": tier, "seed": seed,
                                   "broken": lean_broken + [f"correspondence: implementation and model disagree on '{cases[k]}' "
                                                            f"(impl '{impl[k]}', model '{model[k]}', oracle: {verdicts[k]})" for k in allowed[:10]],
                                   "case": cases[allowed[0]] if allowed else None,
                                   "search": search_info})
        lines.append(f"VIOLATION property={prop} replay={path} no-failing-input-found")
        rc = 1

    # ---- evidence
    distinct = {}
    for c, o in zip(cases, impl):
        distinct.setdefault(c, o)
    nontrivial = sum(1 for c, o in distinct.items() if not TRIVIAL_OBS.match(o))
    samples = []
    step = max(1, len(cases) // 5)
    for k in list(range(0, len(cases), step))[:6]:
        samples.append({"case": cases[k], "implementation": impl[k], "model": model[k]})
    corr = {"cases": len(cases), "corpus_cases": len(corpus), "generated": len(gen), "distinct_cases": len(distinct),
            "mismatches": len(mism), "judged_violation": len(violations), "judged_allowed": len(allowed),
            "generator_stats": stats, "search": search_info}
    write_evidence(prop, tier, seed, t_start, info, corr, violations=len(new_viol) + (1 if rc and not new_viol else 0),
                   obligations=len(expected), discharged=discharged, samples=samples,
                   evaluations=len(cases), nontrivial=nontrivial, known=[e.get("key") for e in seen_known],
                   lean_broken=lean_broken, thorough_info=thorough_info, axioms=got)
    for l in lines:
        print(l)
    print(f"{prop} {tier}: obligations {discharged}/{len(expected)} discharged, correspondence {len(cases)} cases "
          f"({len(mism)} mismatches), {'FAIL' if rc else 'ok'} in {time.time()-t_start:.1f}s")
    return rc


def write_evidence(prop, tier, seed, t_start, info, corr, violations=0, obligations=0, discharged=0, samples=None,
                   evaluations=0, nontrivial=0, known=None, lean_broken=None, thorough_info=None, axioms=None):
    meta = {}
    mp = os.path.join(ROOT, "manifest.d", prop + ".json")
    if os.path.exists(mp):
        meta = json.load(open(mp))
    ev = {
        "property_id": prop, "tier": tier if tier in ("quick", "thorough") else "quick", "seed": seed, "level": "proof",
        "coverage": {
            "obligations": obligations, "discharged": discharged,
            "checker_cmd": f"cd lean && lake build FpgoVerif.Props.{prop} && lake env lean FpgoVerif/Audit/{prop}.lean"
                           + (" ; from-clean rebuild + lake env leanchecker FpgoVerif.Props.%s" % prop if tier == "thorough" else ""),
            "trusted_base": meta.get("trusted_base", ["Lean 4 kernel", "axioms: propext, Classical.choice, Quot.sound",
                                                       "/verif extractor + correspondence harness"]),
            "theorems": axioms or {},
            "evaluations": evaluations, "distinct_nontrivial": nontrivial,
            "rule": meta.get("rule", "cases = corpus + generated (see generator_stats); distinct = distinct case lines; "
                                     "non-trivial = the real code's observation contains at least one token other than err*/panic/empty/nil"),
            "samples": samples or [],
            "exhaustive": bool((corr or {}).get("generator_stats", {}).get("exhaustive", False)),
            "correspondence": corr, "gen": info.get("gen_hashes"), "gen_changed_this_run": info.get("gen_changed"),
            "known_findings_seen": known or [], "unchecked_obligations": lean_broken or [],
            "partial": meta.get("partial", []), "thorough_lean": thorough_info, "lean_seconds": info.get("lean_s"),
        },
        "assumptions": meta.get("assumptions", []),
        "wall_s": round(time.time() - t_start, 2), "violations": violations,
    }
    evdir = os.environ.get("VERIF_EVIDENCE_DIR", os.path.join(ROOT, "evidence"))
    os.makedirs(evdir, exist_ok=True)
    with open(os.path.join(evdir, prop + ".json"), "w") as f:
        json.dump(ev, f, indent=1, sort_keys=True)
        f.write("\n")


def setup():
    t0 = time.time()
    log = []
    with Lock():
        rc, out, changed, _ = build_extract_and_gen(log)
        if rc != 0:
            print(out)
            return 1
        rc, out = lake(["build", "FpgoVerif", "driver"], timeout=7200)
        print(out[-3000:])
        if rc != 0:
            return 1
        rc, out = build_harness(os.path.join(BUILD, "harness"))
        print(out[-3000:])
        if rc != 0:
            return 1
    print(f"setup ok in {time.time()-t0:.0f}s")
    return 0


if __name__ == "__main__":
    sys.exit(main(sys.argv[1:]))
